#!/usr/bin/env python3
"""verify_seed.py <seed-worktree-or-dir-with-SEED> <demo test filter>
Independent confirmation of a seeded change in a fresh scratch worktree of /repo HEAD:
 1. demo only         -> demo tests must PASS
 2. demo + patch      -> full suite (original 65) must PASS, demo tests must FAIL
Prints a JSON summary.  Scratch worktree and its target dir are removed afterwards."""
import json, os, re, shutil, subprocess, sys, tempfile

src = sys.argv[1].rstrip("/")
flt = sys.argv[2]
seed = os.path.join(src, "SEED") if os.path.isdir(os.path.join(src, "SEED")) else src
wt = tempfile.mkdtemp(prefix="seedchk-")
os.rmdir(wt)
subprocess.check_call(["git", "-C", "/repo", "worktree", "add", "-q", "--detach", wt, "HEAD"])
env = dict(os.environ, CARGO_TARGET_DIR=os.path.join(wt, "target"), CARGO_NET_OFFLINE="true")
res = {}
def run(cmd):
    p = subprocess.run(cmd, cwd=wt, env=env, shell=True, stdout=subprocess.PIPE, stderr=subprocess.STDOUT, text=True)
    return p.returncode, p.stdout
def counts(out):
    ok = sum(int(m.group(1)) for m in re.finditer(r"test result: \w+\. (\d+) passed", out))
    bad = sum(int(m.group(1)) for m in re.finditer(r"test result: \w+\. \d+ passed; (\d+) failed", out))
    return ok, bad
try:
    demo_diff = os.path.join(seed, "demo", "demo.diff")
    if os.path.exists(demo_diff):
        rc, out = run("git apply %s" % demo_diff)
        res["demo_applies"] = rc == 0
    run("rm -f test/src/*/grammar.rs")
    rc, out = run("cargo test --offline -p peginator_test %s 2>&1" % flt)
    res["demo_without_patch"] = counts(out) + (rc,)
    rc, out = run("git apply %s" % os.path.join(seed, "patch.diff"))
    res["patch_applies"] = rc == 0
    run("rm -f test/src/*/grammar.rs")
    rc, out = run("cargo test --offline --workspace --no-fail-fast 2>&1")
    res["suite_with_patch_all"] = counts(out) + (rc,)
    failed = sorted(set(re.findall(r"^test (\S+) \.\.\. FAILED", out, re.M)))
    res["failed_tests_with_patch"] = failed
    res["only_demo_fails"] = bool(failed) and all(flt in f for f in failed)
finally:
    subprocess.call(["git", "-C", "/repo", "worktree", "remove", "--force", wt])
    shutil.rmtree(wt, ignore_errors=True)
print(json.dumps(res, indent=1))
